"""C05 - decoded data re-encodes to a valid, equivalent document; strict encode is sound.

Part (a), round trip.  For every schema template of mc/gen/docs_c05.py (33 templates from a small grammar),
every valid instance = every word of length <= 4 of each content model (reference DFA of mc/ref/regex.py) x
mixed-text pattern x leaf / attribute values from a 3-value catalogue (value deviations <= 2), for every
converter class and every option set (option deviations <= 1 quick, <= 2 thorough):

    data = schema.decode(xml, converter, options);  elem = schema.encode(data, converter, namespaces, options)

the serialised `elem` must be valid, structurally equal to the instance (tags, attribute sets, typed values
compared in value space by plain Python, character data of mixed content) and decode to the same data again.
JsonML and DataElement are judged on everything; the default / BadgerFish / GData conventions are judged on
instances all of whose content models have contiguous same-named children (decided on the reference automaton;
also when the child word of every element is the only word of its model with the same names in first-occurrence
order and the same counts, which is all a keyed dict retains - e.g. `iiit` of `(i, n?)*, t`)
and that have no character data strictly between two children (the default converter, which by documented
design drops character data unless cdata_prefix is set, only on instances without mixed character data);
Unordered, Parker, Abdera and Columnar are explored and counted only.

Part (b), encoder soundness.  For each decoded datum EVERY single mutation {drop / duplicate entry i, swap
adjacent entries, retype a value to str / int / None / [] / [value] / {}, rename a key} at every container
of the datum (every mutation of every mutant = pairs, in thorough): schema.encode(mutant, validation='strict')
must raise XMLSchemaValidationError (incl. the encode / decode / children subclasses) or return an element whose
serialisation the same schema accepts.  Any other exception, a None result or an invalid tree is a violation.
"""
import os
import traceback
from collections.abc import MutableMapping, MutableSequence
from itertools import combinations
from xml.etree import ElementTree as ET

import xmlschema
from xmlschema import XMLSchemaValidationError
from xmlschema.dataobjects import DataElement

from mc.core import runner
from mc.gen import docs_c05 as G

ID = 'C05'
TITLE = 'Decoded data re-encodes to a valid, equivalent document; strict encode is sound'
RULE = ('33 schema templates (nested complex types, attributes, simple content + attributes, mixed content, list-typed '
        'leaves and attributes incl. empty lists, qualified / unqualified / two-namespace / no-namespace, contiguous and '
        'non-contiguous repeated children, repeated groups, nillable / optional leaves, choice, all-group, empty content, simple content over list types, facet-restricted list / string types as element, simple content and attribute types) x every word of '
        'length <= 4 of every content model (all occurrences of one type share a word; <= 12 elements) x mixed-text '
        'pattern {none, head, tail, between, all} x value deviations <= 2 over the slots (leaf text, attribute, '
        'xsi:nil) x 9 converters x option sets over {preserve_root, force_list, force_dict, decimal_type=float|str, '
        'datetime_types, default-namespace spelling, cdata_prefix (default/unordered converter)}; one evaluation = one '
        '(instance, converter, option set) round trip, or one strict encode of one mutant; non-trivial = new '
        '(template, converter, options, words, kinds of deviating slots) resp. new (template, converter, mutation '
        'operator, path shape, outcome)')
ASSUMPTIONS = [
    'all occurrences of one complex type inside one instance carry the same child word and text pattern',
    'typed values are compared in value space by a plain-Python reading of the lexical forms of the catalogue '
    '(int, Decimal, float, date / dateTime with timezone, lists itemwise); strings and NMTOKENs exactly',
    'character data of mixed content is compared after stripping the indentation the encoder may add; '
    'whitespace-only text in element-only content is ignored',
    'keyed-dict conventions (default, BadgerFish, GData) are judged only on instances whose content models all have '
    'contiguous same-named children (or, wider, whose child words are each the only word of their model with the same '
    'names in first-occurrence order and the same counts: the keyed data then denotes exactly one valid document; no '
    'discrepancy of this wider class exists on the unchanged tree) and no character data strictly between two children; '
    'the default converter '
    'without cdata_prefix only on instances without mixed character data (it drops it by documented design)',
    'Unordered, Parker, Abdera and Columnar converters are lossy by design: round trips explored and counted, never '
    'judged; encoder soundness (b) is judged for all nine converters',
    'defaults and fixed values are not in the alphabet (the statement does not say whether a filled default is a difference)',
    'instances the library itself does not accept are counted as contested and skipped (content-model acceptance is C01)',
    'encode() receives the namespace map of the source document, as the library tests and documentation do',
    '(b) discrepancy keys name template, converter, mutation operator, path shape and outcome (exception class and '
    'raising function, or first validation error of the returned tree); for pairs template, converter and outcome; '
    'the recorded case (instance, options, mutation chain) is the smallest witness',
]
BUDGET_S = {'quick': 3600, 'thorough': 6 * 3600}

CONVS = [
    ('jsonml', xmlschema.JsonMLConverter, 'always'),
    ('dataelem', xmlschema.DataElementConverter, 'always'),
    ('default', xmlschema.XMLSchemaConverter, 'keyed'),
    ('badgerfish', xmlschema.BadgerFishConverter, 'keyed'),
    ('gdata', xmlschema.GDataConverter, 'keyed'),
    ('unordered', xmlschema.UnorderedConverter, 'explore'),
    ('parker', xmlschema.ParkerConverter, 'explore'),
    ('abdera', xmlschema.AbderaConverter, 'explore'),
    ('columnar', xmlschema.ColumnarConverter, 'explore'),
]
CONV = {n: (c, m) for n, c, m in CONVS}
# option -> (converter kwargs, decode kwargs)
OPTIONS = {
    'preserve_root': ({'preserve_root': True}, {}),
    'force_list': ({'force_list': True}, {}),
    'force_dict': ({'force_dict': True}, {}),
    'dec_float': ({}, {'decimal_type': float}),
    'dec_str': ({}, {'decimal_type': str}),
    'datetime': ({}, {'datetime_types': True}),
    'defns': ({}, {}),
    'cdata': ({'cdata_prefix': '#'}, {}),
}
OPT_ORDER = tuple(OPTIONS)
VALDEV = 2
SLICE_K = 16            # quick adds the seed-selected 1/16 of the option-pair space
RETYPES = ('str', 'int', 'none', 'list', 'wrap', 'dict')


def option_sets(maxdev):
    out = []
    for d in range(maxdev + 1):
        for c in combinations(OPT_ORDER, d):
            if 'dec_float' in c and 'dec_str' in c:
                continue
            out.append(c)
    return out


def opt_kwargs(optset):
    ck, dk = {}, {}
    for o in optset:
        ck.update(OPTIONS[o][0])
        dk.update(OPTIONS[o][1])
    return ck, dk


def optkey(optset):
    return '+'.join(optset) or '-'


# --- schema contexts ----------------------------------------------------------------------------------

_CTX = {}


class Ctx:
    def __init__(self, name):
        self.tpl = G.BY_NAME[name]
        self.decls = G.Decls(self.tpl)
        docs = G.render_schemas(self.tpl, self.decls)
        if len(docs) == 1:
            self.schema = xmlschema.XMLSchema(docs[0])
        else:
            self.schema = xmlschema.XMLSchema(docs[0], build=False)
            self.schema.add_schema(docs[1], namespace=G.ONS)
            self.schema.build()
        self.skels = G.skeletons(self.tpl, self.decls)
        self.defns_ok = G.default_ns_ok(self.tpl, self.decls)


def ctx_of(name):
    if name not in _CTX:
        _CTX[name] = Ctx(name)
    return _CTX[name]


class Inst:
    """One valid instance: reference tree, both spellings, domain facts."""

    def __init__(self, ctx, skel, dev):
        self.ctx, self.skel, self.dev = ctx, skel, dev
        words, pats = G.parse_skel_key(skel)
        self.words = words
        self.root = G.build_instance(ctx.tpl, ctx.decls, skel, dev)
        # keyed conventions: every model contiguous, or (wider) the child word of every element is the only word of
        # its model with the same names in first-occurrence order and the same counts (all a keyed dict retains)
        self.contig = all(ctx.decls.contig[c] or words[c] in ctx.decls.unique[c] for c in words)
        self.between = G.has_between_text(self.root)
        self.anytext = has_text(self.root)
        self._xml = {}
        self._kinds = None

    def xml(self, default_ns):
        if default_ns not in self._xml:
            self._xml[default_ns] = G.to_xml(self.ctx.tpl, self.root, default_ns)
        return self._xml[default_ns]

    def kinds(self):
        if self._kinds is None:
            self._kinds = dev_kinds(self)
        return self._kinds

    def ident(self):
        return '%s|%s|%s' % (self.ctx.tpl['name'], self.skel, self.dev)

    def automaton_steps(self):
        """(states, transitions) of the reference DFA runs that produced this instance."""
        st = tr = 0
        for c, w in self.words.items():
            d = self.ctx.decls.dfa[c]
            if d is not None:
                run = d.run(w)
                st += len(run)
                tr += len(w)
        return st, tr


def has_text(node):
    if node['segs'] and any(node['segs']):
        return True
    return any(has_text(k) for k in node['kids'])


def domain_skip(mode, conv, optset, inst):
    """Reason why this round trip is outside the statement's domain (None = judged)."""
    if mode == 'always':
        return None
    if mode == 'explore':
        return 'lossy-by-design'
    if not inst.contig:
        return 'non-contiguous'
    if inst.between:
        return 'text-between-children'
    if conv == 'default' and 'cdata' not in optset and inst.anytext:
        return 'default-drops-cdata'
    return None


# --- data helpers -------------------------------------------------------------------------------------

def canon(o):
    """Canonical, order-preserving text of a datum (dicts, lists, DataElement trees, scalars)."""
    if isinstance(o, DataElement):
        return 'DE(%r,%s,%s,[%s],%r)' % (o.tag, canon(o.value), canon(o.attrib),
                                         ','.join(canon(c) for c in o._children), o.tail)
    if isinstance(o, MutableMapping):
        return '{' + ','.join('%r:%s' % (k, canon(v)) for k, v in o.items()) + '}'
    if isinstance(o, (MutableSequence, tuple)):
        return '[' + ','.join(canon(v) for v in o) + ']'
    return '%s:%r' % (type(o).__name__, o)


def same_data(a, b):
    if isinstance(a, DataElement) or isinstance(b, DataElement):
        return canon(a) == canon(b)
    try:
        return bool(a == b)
    except Exception:                                                   # noqa
        return canon(a) == canon(b)


def clone(o):
    if isinstance(o, DataElement):
        n = DataElement(o.tag, clone(o.value), None, o.nsmap, o.xmlns, o.xsd_element, o.xsd_type)
        n.attrib = clone(o.attrib)
        n.tail = o.tail
        n._children = [clone(c) for c in o._children]
        return n
    if isinstance(o, MutableMapping):
        return type(o)((k, clone(v)) for k, v in o.items())
    if isinstance(o, MutableSequence):
        return type(o)(clone(v) for v in o)
    return o


def short(o, n=240):
    s = canon(o)
    return s if len(s) <= n else s[:n] + '...'


# --- part (a): one round trip ---------------------------------------------------------------------------

def decode(ctx, xml, conv, ck, dk):
    cls = CONV[conv][0]
    if conv == 'dataelem' and not ck:
        return ctx.schema.to_objects(xml, **dk)
    return ctx.schema.decode(xml, converter=cls, **ck, **dk)


def reason_of(e):
    return ' '.join(str(getattr(e, 'reason', None) or e).split())[:120]


def where_raised(e):
    """file:function of the innermost frame inside the library (stable across line shifts)."""
    tb = traceback.extract_tb(e.__traceback__)
    for fr in reversed(tb):
        if '/xmlschema/' in fr.filename or '/elementpath/' in fr.filename:
            return '%s:%s' % (fr.filename.split('/xmlschema/')[-1].split('/elementpath/')[-1], fr.name)
    return 'harness'


def roundtrip(inst, conv, optset):
    """Returns (result label, failure text or None, number of library calls)."""
    ctx = inst.ctx
    ck, dk = opt_kwargs(optset)
    xml, nsmap = inst.xml('defns' in optset)
    cls = CONV[conv][0]
    calls = 1
    try:
        data = decode(ctx, xml, conv, ck, dk)
    except Exception as e:                                               # noqa
        return 'decode-raised', '%s: %s' % (type(e).__name__, reason_of(e)), calls
    calls += 1
    try:
        elem = ctx.schema.encode(data, converter=cls, namespaces=nsmap, **ck)
    except XMLSchemaValidationError as e:
        return 'encode-rejected', '%s: %s; data %s' % (type(e).__name__, reason_of(e), short(data)), calls
    except Exception as e:                                               # noqa
        return 'encode-escaped', '%s at %s: %s; data %s' % (type(e).__name__, where_raised(e), reason_of(e),
                                                           short(data)), calls
    if elem is None:
        return 'encode-none', 'encode returned None; data %s' % short(data), calls
    try:
        text = xmlschema.etree_tostring(elem, namespaces=nsmap)
        tree = ET.fromstring(text)
    except Exception as e:                                               # noqa
        return 'unserialisable', '%s: %s' % (type(e).__name__, e), calls
    calls += 1
    err = next(ctx.schema.iter_errors(text), None)
    if err is not None:
        return 'invalid', 'encoded document invalid: %s; data %s' % (reason_of(err), short(data)), calls
    diffs = G.compare(inst.root, tree)
    if diffs:
        return 'differs', '%s; data %s' % ('; '.join(diffs[:2]), short(data)), calls
    calls += 1
    try:
        again = decode(ctx, text, conv, ck, dk)
    except Exception as e:                                               # noqa
        return 'redecode-raised', '%s: %s' % (type(e).__name__, reason_of(e)), calls
    if not same_data(data, again):
        return 'redecode-differs', 'first %s / again %s' % (short(data), short(again)), calls
    return 'ok', None, calls


def applicable(ctx, conv, optset):
    if 'defns' in optset and not ctx.defns_ok:
        return False
    if 'cdata' in optset and conv not in ('default', 'unordered'):
        return False            # the other classes fix their own cdata_prefix: same configuration as without
    return True


def key_a(inst, conv, optset, result):
    return 'C05|a|%s|%s|%s' % (inst.ident(), conv, result)


def eval_a(inst, conv, optset, acc=None):
    """Judges one round trip; returns [(key, what)]."""
    mode = CONV[conv][1]
    skip = domain_skip(mode, conv, optset, inst)
    result, text, calls = roundtrip(inst, conv, optset)
    if acc is not None:
        acc.ev()
        acc.st(traces=calls)
        acc.nt('a|%s|%s|%s|%s|%s' % (inst.ctx.tpl['name'], conv, optkey(optset), inst.skel, inst.kinds()))
        if skip is None:
            acc.out('judged:' + result)
        elif mode == 'explore':
            acc.out('explored-lossy:' + result)
            acc.cnt('explored %s: %s' % (conv, result))
        else:
            acc.out('outside-domain:' + result)
            acc.cnt('skipped %s (%s): %s' % (conv, skip, 'ok' if result == 'ok' else 'not ok'))
    if skip is None and result != 'ok':
        xml = inst.xml('defns' in optset)[0]
        return [(key_a(inst, conv, optset, result),
                 '%s converter, options %s: %s of %s: %s' % (conv, optkey(optset), result, xml, text))]
    return []


def dev_kinds(inst):
    """Which kinds of slot deviate (for the distinct-non-trivial signature)."""
    devs = G.parse_dev_key(inst.dev)
    if not devs:
        return '-'
    words, pats = G.parse_skel_key(inst.skel)
    _root, slots = G.slots_of(inst.ctx.tpl, inst.ctx.decls, words, pats)
    out = []
    for si, oi in devs:
        node, kind, name, options = slots[si]
        v = options[oi]
        out.append('%s:%s:%s' % (node['qname'], name or 'text',
                                 v if v in (G.NIL, G.ABSENT) else ('empty' if v == '' else 'v')))
    return ','.join(out)


# --- part (b): mutations --------------------------------------------------------------------------------
# A path is a tuple of steps from the datum to a container: int = i-th value of a dict / list,
# 'c' = children list of a DataElement, 'a' = its attribute dict.

def resolve(obj, path):
    for s in path:
        if s == 'c':
            obj = obj._children
        elif s == 'a':
            obj = obj.attrib
        elif isinstance(obj, MutableMapping):
            obj = list(obj.values())[s]
        else:
            obj = obj[s]
    return obj


def shape(obj, path):
    """Path with list positions abstracted: names of dict keys / DataElement tags, '*' for list items."""
    out = []
    for s in path:
        if s == 'c':
            out.append('%s/children' % obj.tag)
            obj = obj._children
        elif s == 'a':
            out.append('%s/attrib' % obj.tag)
            obj = obj.attrib
        elif isinstance(obj, MutableMapping):
            out.append(str(list(obj)[s]))
            obj = list(obj.values())[s]
        else:
            out.append('*')
            obj = obj[s]
    return '/'.join(out) or '.'


def sites(obj, path=()):
    """Every container of the datum: (path, kind, size)."""
    if isinstance(obj, DataElement):
        yield path, 'de', 0
        yield path + ('c',), 'list', len(obj._children)
        for i, c in enumerate(obj._children):
            yield from sites(c, path + ('c', i))
        yield path + ('a',), 'dict', len(obj.attrib)
        for i, v in enumerate(obj.attrib.values()):
            yield from sites(v, path + ('a', i))
    elif isinstance(obj, MutableMapping):
        yield path, 'dict', len(obj)
        for i, v in enumerate(list(obj.values())):
            yield from sites(v, path + (i,))
    elif isinstance(obj, MutableSequence):
        yield path, 'list', len(obj)
        for i, v in enumerate(obj):
            yield from sites(v, path + (i,))


def mutations(datum):
    """Every single mutation as a JSON-able descriptor [path, op, index, argument]."""
    for k in RETYPES:
        yield [[], 'root', 0, k]
    for path, kind, n in sites(datum):
        p = list(path)
        if kind == 'de':
            for k in RETYPES:
                yield [p, 'value', 0, k]
            yield [p, 'tag', 0, 'zz']
            continue
        for i in range(n):
            yield [p, 'drop', i, None]
            yield [p, 'dup', i, None]
            if i + 1 < n:
                yield [p, 'swap', i, None]
            for k in RETYPES:
                yield [p, 'retype', i, k]
            if kind == 'dict':
                yield [p, 'rename', i, 'zz']
                yield [p, 'rename', i, 'flip']
                yield [p, 'rename', i, 'text']


def retyped(kind, old):
    return {'str': 'zz', 'int': 7, 'none': None, 'list': [], 'wrap': [old], 'dict': {}}[kind]


def mutate(datum, desc):
    """Applies one mutation to a fresh clone; returns the mutant."""
    path, op, i, arg = desc
    m = clone(datum)
    if op == 'root':
        return retyped(arg, m)
    target = resolve(m, path)
    if op == 'value':
        target.value = retyped(arg, target.value)
        return m
    if op == 'tag':
        target.tag = arg
        return m
    if isinstance(target, MutableMapping):
        items = list(target.items())
        if op == 'drop':
            del items[i]
        elif op == 'dup':
            items[i] = (items[i][0], [items[i][1], clone(items[i][1])])
        elif op == 'swap':
            items[i], items[i + 1] = items[i + 1], items[i]
        elif op == 'retype':
            items[i] = (items[i][0], retyped(arg, items[i][1]))
        elif op == 'rename':
            k = items[i][0]
            if arg == 'flip':
                k = k[1:] if isinstance(k, str) and k[:1] == '@' else '@%s' % k
            elif arg == 'text':
                k = '$'                 # the text key of the default / BadgerFish conventions
            else:
                k = arg
            items[i] = (k, items[i][1])
        target.clear()
        for k, v in items:
            target[k] = v
        return m
    if op == 'drop':
        del target[i]
    elif op == 'dup':
        target.insert(i + 1, clone(target[i]))
    elif op == 'swap':
        target[i], target[i + 1] = target[i + 1], target[i]
    elif op == 'retype':
        target[i] = retyped(arg, target[i])
    return m


def mut_name(datum, desc):
    path, op, i, arg = desc
    return '%s%s@%s' % (op, '.' + arg if arg else '', shape(datum, tuple(path)))


def strict_encode(ctx, conv, ck, nsmap, mutant):
    """Returns (label, detail); labels 'rejected' and 'accepted-valid' satisfy the property."""
    cls = CONV[conv][0]
    try:
        elem = ctx.schema.encode(mutant, validation='strict', converter=cls, namespaces=nsmap, **ck)
    except XMLSchemaValidationError:
        return 'rejected', None
    except RecursionError:
        raise
    except Exception as e:                                               # noqa
        return 'escaped', '%s@%s' % (type(e).__name__, where_raised(e))
    if elem is None:
        return 'returned-none', 'None'
    try:
        text = xmlschema.etree_tostring(elem, namespaces=nsmap)
    except Exception as e:                                               # noqa
        return 'unserialisable', type(e).__name__
    try:
        err = next(ctx.schema.iter_errors(text), None)
    except Exception as e:                                               # noqa
        return 'invalid-output', 'not well-formed: %s' % type(e).__name__
    if err is None:
        return 'accepted-valid', None
    return 'invalid-output', norm_reason(reason_of(err))


def norm_reason(r):
    import re
    r = re.sub(r"'[^']*'", "'_'", r)
    r = re.sub(r'\d+', 'N', r)
    return r[:80].replace('|', '/')


def key_b(tplname, conv, mname, label, detail):
    return 'C05|b|%s|%s|%s|%s:%s' % (tplname, conv, mname, label, detail)


def eval_b(inst, conv, optset, chain, acc=None, seen=None, pairs=False):
    """Encoder soundness on the datum of one instance.  chain = None explores every mutation (and every
    mutation of every mutant when pairs); a list of descriptors replays exactly that chain."""
    ctx = inst.ctx
    ck, dk = opt_kwargs(optset)
    xml, nsmap = inst.xml('defns' in optset)
    try:
        datum = decode(ctx, xml, conv, ck, dk)
    except Exception:                                                    # noqa
        if acc is not None:
            acc.cnt('b: datum not decodable')
        return []
    found = []
    tplname = ctx.tpl['name']
    base = canon(datum)

    def judge(mutant, descs, names, text):
        h = runner.h64('%s|%s|%s|%s' % (conv, optkey(optset), sorted(nsmap), text))
        if seen is not None and h in seen:
            label, detail = seen[h]              # same mutant reached from another instance: outcome re-used
            if acc is not None:
                acc.cnt('b: mutant already encoded in this shard (outcome re-used)')
        else:
            label, detail = strict_encode(ctx, conv, ck, nsmap, mutant)
            if seen is not None:
                seen[h] = (label, detail)
            if acc is not None:
                acc.st(traces=1 if label in ('rejected', 'escaped', 'returned-none') else 2)
        if acc is not None:
            acc.ev()
            acc.out('b:%s' % label)
            acc.nt('b|%s|%s|%s|%s' % (tplname, conv, '+'.join(names), label))
        if label not in ('rejected', 'accepted-valid'):
            mname = ' ; '.join(names)
            what = ('%s converter, options %s: strict encode of a mutant (%s) of the data of %s %s; mutant %s'
                    % (conv, optkey(optset), mname, xml,
                       {'escaped': 'raised ' + str(detail), 'returned-none': 'returned None without an error',
                        'unserialisable': 'returned a tree that cannot be serialised (%s)' % detail,
                        'invalid-output': 'returned XML the schema rejects (%s)' % detail}[label], short(mutant)))
            if len(names) == 1:
                key = key_b(tplname, conv, mname, label, detail)
            else:               # pairs: one key per (template, converter, outcome); the case is a witness
                key = 'C05|b2|%s|%s|%s:%s' % (tplname, conv, label, detail)
            found.append((key, what, descs))

    if chain is not None:
        m, names = datum, []
        for desc in chain:
            names.append(mut_name(m, desc))
            m = mutate(m, desc)
        judge(m, chain, names, canon(m))
        return found

    for desc in mutations(datum):
        m = mutate(datum, desc)
        c = canon(m)
        if c == base:
            if acc is not None:
                acc.cnt('b: mutation without effect')
            continue
        name = mut_name(datum, desc)
        judge(m, [desc], [name], c)
        if not pairs:
            continue
        for desc2 in mutations(m):
            m2 = mutate(m, desc2)
            c2 = canon(m2)
            if c2 == c or c2 == base:
                continue
            judge(m2, [desc, desc2], [name, mut_name(m, desc2)], c2)
    return found


# --- bounds, shards -------------------------------------------------------------------------------------

A_TARGET = 450          # round-trip instances per shard (x converters x option sets)
B_TARGET = {'quick': 40, 'thorough': 6}


def b_space(tier):
    """Part (b): value deviations of the mutated instances, option deviations, pairs."""
    if tier == 'quick':
        return {'valdev': 1, 'optdev': 0, 'pairs_nodes': 0, 'pair_slice': 0}
    return {'valdev': 1, 'optdev': 1, 'pairs_nodes': 6, 'pair_slice': 0}


def n_instances(ctx_decls, tpl, skels, maxdev):
    n = 0
    per = []
    for words, pats in skels:
        _root, slots = G.slots_of(tpl, ctx_decls, words, pats)
        k = sum(1 for _ in G.deviations(slots, maxdev))
        per.append(k)
        n += k
    return n, per


def shards(tier, seed):
    out = []
    bs = b_space(tier)
    only = os.environ.get('C05_ONLY', '').split(',') if os.environ.get('C05_ONLY') else None   # developer aid
    for tpl in G.TEMPLATES:
        if only and tpl['name'] not in only:
            continue
        decls = G.Decls(tpl)
        skels = G.skeletons(tpl, decls)
        n, _ = n_instances(decls, tpl, skels, VALDEV)
        weight = n * (1 if tier == 'quick' else 4)
        chunks = max(1, min(len(skels), -(-weight // A_TARGET)))
        for c in range(chunks):
            out.append(('a', tier, seed, tpl['name'], c, chunks))
        nb, _ = n_instances(decls, tpl, skels, bs['valdev'])
        chunks = max(1, min(len(skels), -(-nb // B_TARGET[tier])))
        for c in range(chunks):
            out.append(('b', tier, seed, tpl['name'], c, chunks))
    # heavy shards first
    return out


def instances_of(ctx, chunk, chunks, maxdev):
    for si, (words, pats) in enumerate(ctx.skels):
        if si % chunks != chunk:
            continue
        skel = G.skel_key(words, pats)
        _root, slots = G.slots_of(ctx.tpl, ctx.decls, words, pats)
        for devs in G.deviations(slots, maxdev):
            yield Inst(ctx, skel, G.dev_key(devs))


def run_shard(shard, acc):
    part, tier, seed, name, chunk, chunks = shard
    ctx = ctx_of(name)
    if part == 'a':
        run_a(ctx, tier, seed, chunk, chunks, acc)
    else:
        run_b(ctx, tier, seed, chunk, chunks, acc)


def a_level(tier, vdev, odev):
    """'full' = inside the completed bound, 'slice' = next bound (quick: seed-selected residue), None = outside."""
    if tier == 'thorough':
        return 'full' if odev <= 2 else None
    if odev == 0 or (vdev <= 1 and odev <= 1):
        return 'full'
    if (vdev == 2 and odev == 1) or (vdev <= 1 and odev == 2):
        return 'slice'
    return None


def run_a(ctx, tier, seed, chunk, chunks, acc):
    optsets = option_sets(2)
    sampled = 0
    found = Found()
    for inst in instances_of(ctx, chunk, chunks, VALDEV):
        xml = inst.xml(False)[0]
        if not ctx.schema.is_valid(xml):
            acc.cnt('contested: reference-valid instance rejected by the library')
            continue
        st, tr = inst.automaton_steps()
        acc.st(states=st, transitions=tr, traces=1)
        vdev = len(G.parse_dev_key(inst.dev))
        for optset in optsets:
            level = a_level(tier, vdev, len(optset))
            if level is None:
                continue
            for conv, _cls, _mode in CONVS:
                if not applicable(ctx, conv, optset):
                    continue
                if level == 'slice' and not runner.in_slice(
                        '%s|%s|%s' % (inst.ident(), conv, optkey(optset)), seed, SLICE_K):
                    continue
                with acc.guard(30):
                    discs = eval_a(inst, conv, optset, acc)
                for key, what in discs:
                    found.add(acc, key, what, {'part': 'a', 'tpl': ctx.tpl['name'], 'skel': inst.skel,
                                               'dev': inst.dev, 'conv': conv, 'opts': list(optset)})
        if sampled < 1 and chunk == 0 and inst.dev != '-':
            sampled += 1
            acc.sample({'part': 'a', 'template': ctx.tpl['name'], 'words': inst.skel, 'deviations': inst.dev,
                        'xml': xml, 'decoded (default converter)': short(decode(ctx, xml, 'default', {}, {}))})
    found.flush(acc)


def run_b(ctx, tier, seed, chunk, chunks, acc):
    bs = b_space(tier)
    seen = {}
    sampled = 0
    found = Found()
    for inst in instances_of(ctx, chunk, chunks, bs['valdev']):
        xml = inst.xml(False)[0]
        if not ctx.schema.is_valid(xml):
            acc.cnt('contested: reference-valid instance rejected by the library')
            continue
        st, tr = inst.automaton_steps()
        acc.st(states=st, transitions=tr, traces=1)
        nodes = G.count_nodes(inst.root)
        for optset in option_sets(bs['optdev']):
            if optset and inst.dev != '-':
                continue                 # option deviations on the default-valued instances only
            for conv, _cls, _mode in CONVS:
                if not applicable(ctx, conv, optset):
                    continue
                pairs = bool(bs['pairs_nodes']) and not optset and inst.dev == '-' and nodes <= bs['pairs_nodes']
                with acc.guard(600):
                    bad = eval_b(inst, conv, optset, None, acc, seen, pairs)
                for key, what, descs in bad:
                    found.add(acc, key, what, {'part': 'b', 'tpl': ctx.tpl['name'], 'skel': inst.skel,
                                               'dev': inst.dev, 'conv': conv, 'opts': list(optset), 'chain': descs})
                if sampled < 1 and chunk == 0 and conv == 'default' and not optset:
                    sampled += 1
                    acc.sample({'part': 'b', 'template': ctx.tpl['name'], 'xml': xml,
                                'mutations of the default-converter datum': sum(
                                    1 for _ in mutations(decode(ctx, xml, 'default', {}, {})))})
    found.flush(acc)


def witness_order(case):
    return (len(case['opts']), case['opts'], len(case['skel']), case['skel'], len(case['dev']), case['dev'],
            str(case.get('chain')))


class Found:
    """Discrepancies of one shard: one (smallest) witness per key, every occurrence counted."""

    def __init__(self):
        self.best = {}

    def add(self, acc, key, what, case):
        acc.cnt('discrepant evaluations (part %s)' % case['part'])
        old = self.best.get(key)
        if old is None or witness_order(case) < witness_order(old[1]):
            self.best[key] = (what, case)

    def flush(self, acc):
        for key in sorted(self.best):
            acc.disc(key, self.best[key][0], self.best[key][1])


def finish(tier, seed, acc):
    """Deterministic witness per key across shards: the smallest recorded case."""
    acc.discs.sort(key=lambda d: (d[0], witness_order(d[2])))


def replay(case):
    ctx = ctx_of(case['tpl'])
    inst = Inst(ctx, case['skel'], case['dev'])
    optset = tuple(case['opts'])
    if case['part'] == 'a':
        return eval_a(inst, case['conv'], optset)
    return [(k, w) for k, w, _ in eval_b(inst, case['conv'], optset, case['chain'])]


def bounds(tier, seed):
    bs = b_space(tier)
    return {
        'size': 'templates=%d; every word of length <= 4 of every content model; <= 12 elements per instance'
                % len(G.TEMPLATES),
        'deviations': ('(value deviations, option deviations) <= (2, 2)' if tier == 'thorough' else
                       '(value, option) deviations in {(<=2, 0), (<=1, <=1)} + seed slice 1/%d of {(2, 1), (<=1, 2)}'
                       % SLICE_K),
        'converters': [c for c, _, _ in CONVS],
        'options': list(OPT_ORDER),
        'encoder_soundness': 'every single mutation of the data of every instance with value deviations <= %d '
                             '(default options%s)%s' % (
                                 bs['valdev'], '; single options on default-valued instances' if bs['optdev'] else '',
                                 '; every pair on default-valued instances <= %d elements' % bs['pairs_nodes']
                                 if bs['pairs_nodes'] else ''),
        'retypes': list(RETYPES),
    }
