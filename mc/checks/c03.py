"""C03 - attribute sets are validated per declared uses, value constraints and wildcards.

Bounded exhaustive product: declaration vectors (which names are declared, how: local /
ref / via attribute group, form, use, default/fixed, type) x attribute wildcard (namespace
constraint x processContents) x every subset of a 7-name pool x value deviations x decoding
configuration x XSD version.  Each (schema, instance) is judged by the set model of
mc/ref/attrs.py and replayed on the library through XMLSchema.decode()/is_valid().
"""
import itertools
from xml.etree import ElementTree as ET

from xmlschema import XMLSchema10, XMLSchema11
from xmlschema.validators.exceptions import XMLSchemaParseError, XMLSchemaModelError

from mc.core import runner
from mc.ref import attrs, wild

ID = 'C03'
TITLE = 'Attribute sets are validated per declared uses, value constraints and wildcards'
RULE = ('every declaration vector of the bound (items Lp/Lq local unqualified, LTp local form=qualified, RTp/RTd/RN1g/Rxml '
        'refs to global attributes (t:d declares a default, n1:g a fixed value) + the form family: attributeFormDefault '
        '{absent,qualified,unqualified} x form {absent,qualified,unqualified} for a local p; each use x value-constraint x direct|attributeGroup x type) x every wildcard of the '
        'tier x every subset of the pool {p,q,T:p,N1:g,N2:u,xml:lang,xsi:foo} with canonical values (decoded under '
        'use_defaults x fill_missing, lax) + every single (thorough: also double) value deviation + xsi:nil / N1:h / '
        'T:d extras; a case is non-trivial when its (version, schema, set of reference judgement kinds) signature is new')
ASSUMPTIONS = [
    'one empty-content nillable element; all namespaces used by the instance are declared and passed to the converter',
    'schemas outside the XSD rules are not generated: default with use!=optional, fixed with use=prohibited, a '
    'default on a ref to a fixed global, two declarations of one name',
    'the effective value constraint of an attribute use is the one written on the use, else the one of the '
    'referenced global declaration (t:d default="2", n1:g fixed="1"); a fixed or default on a ref to t:d overrides '
    'the global default',
    'a use="prohibited" declaration contributes no attribute use (XSD 1.0/1.1 3.2.2): such a name is judged like an '
    'undeclared one; when the wildcard admits its namespace the case is skipped and counted (statement silent)',
    'an unknown xsi:foo attribute is judged by the wildcard like any other name only when the wildcard namespace '
    'constraint admits the xsi namespace or there is no wildcard; under a wildcard that excludes it the case is '
    'skipped and counted (contested)',
    'decoded data: attributes admitted by a skip wildcard, invalid attributes and xsi attributes may or may not be '
    'reported; with fill_missing every absent declared attribute must be reported as None',
    'notQName / ##defined wildcards are outside this alphabet (C16)',
    'value catalogue 1, 01, true, 0 (xml:lang: en, de, 1, empty); types string, int, boolean, xml:lang',
]
BUDGET_S = {'quick': 3600, 'thorough': 14400}
VERSIONS = {'1.0': XMLSchema10, '1.1': XMLSchema11}
NSURI = {'T': 'urn:t', 'N1': 'urn:n1', 'N2': 'urn:n2', 'XML': 'http://www.w3.org/XML/1998/namespace',
         'XSI': 'http://www.w3.org/2001/XMLSchema-instance'}
NSMAP = {'t': NSURI['T'], 'n1': NSURI['N1'], 'n2': NSURI['N2'], 'xsi': NSURI['XSI']}
PREFIX2TOKEN = {'t': 'T', 'n1': 'N1', 'n2': 'N2', 'xsi': 'XSI', 'xml': 'XML'}
URI2TOKEN = {v: k for k, v in NSURI.items()}

POOL = ('p', 'q', 'T:p', 'N1:g', 'N2:u', 'XML:lang', 'XSI:foo')
EXTRA = ('XSI:nil', 'N1:h', 'T:d')
GLOBALS = {'T:p': ('int', None), 'T:d': ('int', ('default', '2')), 'N1:g': ('int', ('fixed', '1')),
           'XML:lang': ('lang', None)}
N1_SCHEMA = ('<xs:schema xmlns:xs="http://www.w3.org/2001/XMLSchema" targetNamespace="urn:n1">'
             '<xs:attribute name="g" type="xs:int" fixed="1"/></xs:schema>')
CANON = {'XML:lang': 'en', 'XSI:nil': 'false'}
ALTS = {'XML:lang': ('de', '1', ''), 'XSI:nil': (), 'N1:h': (), 'T:d': ('01', 'true', '0', '2')}
DEF_ALTS = ('01', 'true', '0')
CONVAL = {'string': '1', 'int': '1', 'boolean': 'true', 'lang': 'en'}
CFGS = ((True, False), (False, False), (True, True), (False, True))     # (use_defaults, fill_missing)

# items: kind -> (local, form, ref, has type dimension)
ITEMS = {'Lp': ('p', None, None, True), 'Lq': ('q', None, None, True), 'Lup': ('p', 'unqualified', None, True),
         'LTp': ('p', 'qualified', None, True), 'RTp': (None, None, 'T:p', False),
         'RN1g': (None, None, 'N1:g', False), 'Rxml': (None, None, 'XML:lang', False),
         'RTd': (None, None, 'T:d', False)}
ORDER = ('Lp', 'Lq', 'LTp', 'RTp', 'RN1g', 'Rxml', 'RTd')
USECON = (('optional', None), ('optional', 'default'), ('optional', 'fixed'), ('required', None),
          ('required', 'fixed'), ('prohibited', None))
CONTESTED_KINDS = ('prohibited-under-wildcard', 'xsi-foo-excluded-by-wildcard')


def canon(name):
    return CANON.get(name, '1')


def alts(name):
    return ALTS.get(name, DEF_ALTS)


# --- the declaration alphabet ----------------------------------------------------------------

def item_options(kind):
    """All (use, con, via, typ) of one item with its deviation count, default first."""
    out = []
    typed = ITEMS[kind][3]
    for use, con in USECON:
        if kind == 'RN1g' and con == 'default':
            continue                                  # the global is fixed: a default on the ref is an error
        for via in ('direct', 'group'):
            for typ in (('string', 'int', 'boolean') if typed else (None,)):
                dev = (use != 'optional') + (con is not None) + (via != 'direct') + (typ not in (None, 'string'))
                out.append((dev, (kind, use, con, via, typ)))
    out.sort(key=lambda x: (x[0], USECON.index((x[1][1], x[1][2])), x[1][3], str(x[1][4])))
    return out


def item_sets(nitems):
    for combo in itertools.combinations(ORDER, nitems):
        if 'LTp' in combo and 'RTp' in combo:
            continue                                  # same expanded name twice
        yield combo


def decl_vectors(nitems, maxdev, exactdev=None, kinds=ORDER):
    """Declaration vectors with exactly nitems items (from kinds) and <= maxdev option deviations."""
    out = []
    for combo in item_sets(nitems):
        if any(k not in kinds for k in combo):
            continue
        for choice in itertools.product(*[item_options(k) for k in combo]):
            dev = sum(c[0] for c in choice)
            if dev <= maxdev and (exactdev is None or dev == exactdev):
                out.append((dev, tuple(c[1] for c in choice)))
    out.sort(key=lambda x: x[0])
    return [v for _, v in out]


FORM_KINDS = ('Lp', 'LTp', 'Lup')      # local p with form absent / qualified / unqualified
FORM_WILDCARDS = [None, (('any', (), ()), 'lax'), (('enum', ('L',), ()), 'skip'), (('enum', ('T',), ()), 'strict')]


def form_family(tier):
    """attributeFormDefault {absent, qualified, unqualified} x form {absent, qualified, unqualified}: one local
    declaration with every use x constraint x direct|group option (quick: type int; thorough: all types), and the
    pairs of two forms with default options.  (absent, absent) and (absent, qualified) are the Lp / LTp schemas
    of the main space and are not repeated."""
    out = []
    for afd in (None, 'qualified', 'unqualified'):
        for kind in FORM_KINDS:
            if afd is None and kind != 'Lup':
                continue
            for _, item in item_options(kind):
                if tier != 'quick' or item[4] == 'int':
                    out.append((afd, (item,)))
        for k1, k2 in itertools.combinations(FORM_KINDS, 2):
            items = tuple(item_options(k)[0][1] for k in (k1, k2))
            if afd is None and 'Lup' not in (k1, k2):
                continue                              # Lp + LTp without a default is in the main space
            if len({attrs.effective_name(to_decl(it), afd) for it in items}) == 2:
                out.append((afd, items))
    return out


def wildcards(version, level):
    """level 'all': none + 7 constraints x 3 processContents; 'few': none + 3 pairs."""
    if level == 'few':
        return [None, (('any', (), ()), 'lax'), (('other', (), ()), 'strict'), (('enum', ('L',), ()), 'skip')]
    cs = [('any', (), ()), ('other', (), ()), ('enum', ('L',), ()), ('enum', ('T',), ()), ('enum', ('N1',), ()),
          ('enum', ('T', 'N2'), ())]
    cs.append(('enum', ('L', 'N1'), ()) if version == '1.0' else ('not', ('L', 'N1'), ()))
    out = [None] + [(c, pc) for c in cs for pc in ('skip', 'lax', 'strict')]
    if level == 'mid':
        keep = (('any', 'lax'), ('any', 'strict'), ('other', 'strict'), ('other', 'skip'), (('L',), 'skip'),
                (('T',), 'lax'), (('T',), 'strict'))
        out = [w for w in out if w is None or (w[0][0] if w[0][0] != 'enum' else w[0][1], w[1]) in keep]
    return out


def schema_key(version, items, wc, afd=None):
    its = '+'.join('%s(%s,%s,%s%s)' % (k, use[:3], (con or '-')[:3], via[:3], ',' + typ if typ else '')
                   for k, use, con, via, typ in items) or 'none'
    return '%s|%s|%s%s' % (version, its, '-' if wc is None else '%s/%s' % (wild.show(wc[0]), wc[1]),
                           '|afd=' + afd if afd else '')


def schema_space(tier, seed):
    """List of (version, items, wildcard, heavy) in a fixed order."""
    out = []
    for version in ('1.0', '1.1'):
        def add(vectors, wlevel, heavy=False, slice_k=0):
            for items in vectors:
                for wc in wildcards(version, wlevel):
                    if slice_k and not runner.in_slice(schema_key(version, items, wc), seed, slice_k):
                        continue
                    out.append((version, items, wc, heavy, None))
        add([()], 'all', heavy=(tier == 'thorough'))
        if tier == 'quick':
            add(decl_vectors(1, 9, kinds=('Lp', 'LTp', 'RTp', 'RN1g', 'Rxml', 'RTd')), 'all')
            add(decl_vectors(2, 1), 'few')
            add(decl_vectors(2, 2, exactdev=2), 'few', slice_k=16)      # seed-selected slice of the next bound
        else:
            add(decl_vectors(1, 9), 'all', heavy=True)
            add(decl_vectors(2, 1), 'all')
            add(decl_vectors(2, 2, exactdev=2), 'mid')
            add(decl_vectors(3, 1), 'few')
        for afd, items in form_family(tier):
            for wc in (FORM_WILDCARDS if tier == 'quick' else wildcards(version, 'mid')):
                out.append((version, items, wc, False, afd))
    return out


# --- rendering -------------------------------------------------------------------------------

def to_decl(item):
    kind, use, con, via, typ = item
    local, form, ref, _ = ITEMS[kind]
    ctype = GLOBALS[ref][0] if ref else typ
    return {'local': local, 'form': form, 'ref': ref, 'use': use, 'type': typ,
            'con': (con, CONVAL[ctype]) if con else None}


def qname(name):
    if ':' not in name:
        return name
    tok, local = name.split(':')
    return '{%s}%s' % (NSURI[tok], local)


def render_attr(d):
    if d['ref']:
        tok, local = d['ref'].split(':')
        s = '<xs:attribute ref="%s:%s"' % ({'T': 't', 'N1': 'n1', 'XML': 'xml'}[tok], local)
    else:
        s = '<xs:attribute name="%s" type="xs:%s"' % (d['local'], d['type'])
        if d['form']:
            s += ' form="%s"' % d['form']
    if d['use'] != 'optional':
        s += ' use="%s"' % d['use']
    if d['con']:
        s += ' %s="%s"' % d['con']
    return s + '/>'


def render_schema(items, wc, afd=None):
    groups, body = [], []
    for i, item in enumerate(items):
        a = render_attr(to_decl(item))
        if item[3] == 'group':
            groups.append('<xs:attributeGroup name="G%d">%s</xs:attributeGroup>' % (i, a))
            body.append('<xs:attributeGroup ref="t:G%d"/>' % i)
        else:
            body.append(a)
    # attributes before attribute groups is not required by the XSD grammar, order is kept as generated
    if wc is not None:
        body.append('<xs:anyAttribute %s processContents="%s"/>' % (wild.render(wc[0]), wc[1]))
    return ('<xs:schema xmlns:xs="http://www.w3.org/2001/XMLSchema" targetNamespace="urn:t" xmlns:t="urn:t" '
            'xmlns:n1="urn:n1"%s>\n<xs:import namespace="urn:n1"/>\n'
            '<xs:import namespace="http://www.w3.org/XML/1998/namespace"/>\n'
            '<xs:attribute name="p" type="xs:int"/>\n<xs:attribute name="d" type="xs:int" default="2"/>\n%s\n'
            '<xs:element name="e" nillable="true"><xs:complexType>\n%s\n</xs:complexType></xs:element>\n</xs:schema>'
            % (' attributeFormDefault="%s"' % afd if afd else '', '\n'.join(groups), '\n'.join(body)))


def build(version, items, wc, afd=None):
    try:
        return VERSIONS[version]([render_schema(items, wc, afd), N1_SCHEMA]), None
    except (XMLSchemaParseError, XMLSchemaModelError) as e:
        return None, (e.message or str(e))[:200]


def make_elem(present):
    e = ET.Element('{urn:t}e')
    for name, lex in present.items():
        e.set(qname(name), lex)
    return e


def norm_key(k):
    """'@t:p' / '@{uri}p' / '@p' -> reference name; None for keys that are not attributes."""
    if not k.startswith('@') or k.startswith('@xmlns'):
        return None
    k = k[1:]
    if k.startswith('{'):
        uri, local = k[1:].split('}')
        return '%s:%s' % (URI2TOKEN.get(uri, uri), local)
    if ':' in k:
        pfx, local = k.split(':')
        return '%s:%s' % (PREFIX2TOKEN.get(pfx, pfx), local)
    return k


# --- instances -------------------------------------------------------------------------------

def _subsets(names, maxsize=None):
    for r in range(len(names) + 1 if maxsize is None else maxsize + 1):
        for s in itertools.combinations(names, r):
            yield s


def instances(heavy):
    """List of (present dict, mode, core): mode 'cfg' = decode under the 4 configurations + is_valid,
    'one' = one lax decode.  core instances are identical in both tiers."""
    out = []
    for s in _subsets(POOL):
        out.append(({n: canon(n) for n in s}, 'cfg', True))
    for x in EXTRA:
        for s in _subsets(POOL, 1):
            out.append((dict({n: canon(n) for n in s}, **{x: canon(x)}), 'cfg', True))
    for x in EXTRA:                                                   # value deviations of the extra names
        for s in _subsets(POOL, 1):
            for v in alts(x):
                out.append((dict({n: canon(n) for n in s}, **{x: v}), 'one', True))
    for n in POOL:                                                    # one value deviation
        others = [m for m in POOL if m != n]
        for s in _subsets(others):
            core = len(s) <= 2
            if core or heavy:
                for v in alts(n):
                    out.append((dict({m: canon(m) for m in s}, **{n: v}), 'one', core))
    if heavy:                                                         # two value deviations, <= 1 other present
        for n1, n2 in itertools.combinations(POOL, 2):
            others = [m for m in POOL if m not in (n1, n2)]
            for s in _subsets(others, 1):
                for v1 in alts(n1):
                    for v2 in alts(n2):
                        out.append((dict({m: canon(m) for m in s}, **{n1: v1, n2: v2}), 'one', False))
    out.sort(key=lambda t: (not t[2], len(t[0])))                     # core first, small first (stable)
    return out


_INST = {}


def inst_list(heavy):
    if heavy not in _INST:
        _INST[heavy] = instances(heavy)
    return _INST[heavy]


def show_inst(present):
    return ' '.join('%s=%s' % (n, present[n]) for n in sorted(present)) or '(none)'


# --- one (schema, instance) ------------------------------------------------------------------

def contested(model, present, judged):
    for name in present:
        kind = judged[name][1]
        if name in model.prohibited and model.wildcard_admits(name):
            return CONTESTED_KINDS[0]
        if name == 'XSI:foo' and kind == 'not-admitted':
            return CONTESTED_KINDS[1]
    return None


def same_value(got, exp):
    return type(got) is type(exp) and got == exp


def check_instance(schema, model, present, mode):
    """Returns (list of (tag, what), info)."""
    discs = []
    valid, judged, missing = model.validate(present)
    kinds = sorted(set(j[1] for j in judged.values()) | ({'missing-required'} if missing else set()))
    info = {'valid': valid, 'kinds': kinds, 'contested': contested(model, present, judged), 'calls': 0}
    if info['contested']:
        return discs, info
    elem = make_elem(present)
    why = '; '.join(['%s:%s' % (n, judged[n][1]) for n in sorted(judged) if not judged[n][0]] +
                    ['%s:missing-required' % n for n in missing])
    cfgs = CFGS if mode == 'cfg' else CFGS[:1]
    if mode == 'cfg':
        info['calls'] += 1
        got = schema.is_valid(elem)
        if got != valid:
            discs.append(('is_valid=%s' % got, 'is_valid() says %s, the attribute-set rule says %s%s'
                          % (got, valid, ' (%s)' % why if why else '')))
    for use_defaults, fill_missing in cfgs:
        info['calls'] += 1
        data, errors = schema.decode(elem, validation='lax', namespaces=NSMAP, use_defaults=use_defaults,
                                     fill_missing=fill_missing)
        cfg = 'ud=%d,fm=%d' % (use_defaults, fill_missing)
        if (not errors) != valid:
            reasons = '; '.join(sorted(set((e.reason or '')[:80] for e in errors)))
            discs.append(('%s:%s' % (cfg, 'accepted' if not errors else 'rejected'),
                          'decode(lax, %s) reports %s, the attribute-set rule says %s%s'
                          % (cfg, 'no error' if not errors else 'errors [%s]' % reasons,
                             'valid' if valid else 'invalid', ' (%s)' % why if why else '')))
        got = {}
        if isinstance(data, dict):
            for k, v in data.items():
                n = norm_key(k)
                if n is not None:
                    got[n] = v
        elif data is not None:
            discs.append(('%s:data-shape' % cfg, 'decoded data of an empty element is %r' % (data,)))
            continue
        must, may = model.expected_data(present, judged, use_defaults, fill_missing)
        for n in sorted(must):
            if n not in got:
                discs.append(('%s:data-missing:%s' % (cfg, n), 'decoded data (%s) lacks %s attribute %s (expected %r)'
                              % (cfg, 'present' if n in present else 'absent', n, must[n])))
            elif must[n] is not attrs.NOVALUE and not same_value(got[n], must[n]):
                discs.append(('%s:data-value:%s=%r' % (cfg, n, got[n]), 'decoded data (%s) reports %s=%r, expected %r'
                              % (cfg, n, got[n], must[n])))
        for n in sorted(set(got) - set(must) - may):
            discs.append(('%s:data-extra:%s' % (cfg, n), 'decoded data (%s) reports %s attribute %s=%r that must not '
                          'appear' % (cfg, 'present' if n in present else 'absent', n, got[n])))
    return discs, info


def family(tag):
    """Discrepancy family of a tag: configuration and values stripped."""
    parts = tag.split(':')
    if parts[0].startswith('ud='):
        parts = parts[1:]
    return ':'.join(p.split('=')[0] for p in parts)


def run_schema(version, items, wc, heavy, acc, afd=None):
    skey = schema_key(version, items, wc, afd)
    decls = [to_decl(it) for it in items]
    model = attrs.Model(decls, wc, GLOBALS, afd)
    schema, err = build(version, items, wc, afd)
    acc.st(traces=1)
    if schema is None:
        acc.ev()
        acc.out('schema-refused')
        acc.disc('C03|%s|refused' % skey, 'schema inside the alphabet refused: %s' % err,
                 {'version': version, 'items': items, 'wc': wc, 'afd': afd, 'present': None, 'mode': 'cfg'})
        return
    reported = set()
    ninst = 0
    for present, mode, core in inst_list(heavy):
        with acc.guard(20):
            discs, info = check_instance(schema, model, present, mode)
        acc.ev()
        ninst += 1
        acc.st(traces=info['calls'])
        if info['contested']:
            acc.cnt('contested: ' + info['contested'])
            acc.out('contested')
            continue
        acc.nt('%s|%s' % (skey, ','.join(info['kinds'])))
        acc.out(('valid' if info['valid'] else 'invalid') + (':disc' if discs else ':agree'))
        for k in info['kinds']:
            acc.cnt('kind: ' + k)
        if not discs and ninst % 397 == 0 and present:
            acc.sample({'schema': skey, 'instance': show_inst(present), 'reference_valid': info['valid'],
                        'kinds': info['kinds']})
        for tag, what in discs:
            fam = family(tag)
            if fam in reported:
                acc.cnt('further instances of a reported (schema, family)')
                continue
            reported.add(fam)
            acc.disc('C03|%s|%s|%s' % (skey, show_inst(present), tag), what,
                     {'version': version, 'items': items, 'wc': wc, 'afd': afd, 'present': present, 'mode': mode})
    acc.st(states=ninst, transitions=model.judgements)


# --- runner interface ------------------------------------------------------------------------

NSHARDS = {'quick': 320, 'thorough': 480}


def shards(tier, seed):
    n = len(schema_space(tier, seed))
    k = NSHARDS[tier]
    return [(tier, seed, i, k) for i in range(min(k, n))]


_SPACE = {}


def run_shard(shard, acc):
    tier, seed, i, k = shard
    if (tier, seed) not in _SPACE:
        _SPACE[(tier, seed)] = schema_space(tier, seed)
    for version, items, wc, heavy, afd in _SPACE[(tier, seed)][i::k]:
        run_schema(version, items, wc, heavy, acc, afd)


def _tup(x):
    return tuple(_tup(y) for y in x) if isinstance(x, list) else x


def replay(case):
    version, items, wc, afd = case['version'], _tup(case['items']), _tup(case['wc']), case.get('afd')
    skey = schema_key(version, items, wc, afd)
    schema, err = build(version, items, wc, afd)
    if schema is None:
        return [('C03|%s|refused' % skey, 'schema inside the alphabet refused: %s' % err)]
    model = attrs.Model([to_decl(it) for it in items], wc, GLOBALS, afd)
    discs, info = check_instance(schema, model, case['present'], case['mode'])
    return [('C03|%s|%s|%s' % (skey, show_inst(case['present']), tag), what) for tag, what in discs]


def bounds(tier, seed):
    sp = schema_space(tier, seed)
    return {'size': 'declared attributes <= %d of %d items; pool of %d names, all %d subsets; extras %s'
                    % (2 if tier == 'quick' else 3, len(ORDER), len(POOL), 2 ** len(POOL), list(EXTRA)),
            'deviations': ('quick: 1 item complete option product x 22 wildcards; 2 items D<=1 x 4 wildcards; 1/16 seed '
                           'slice of 2 items D=2 x 4 wildcards; value deviations <= 1 with <= 2 other attributes present'
                           if tier == 'quick' else
                           'thorough: 1 item complete product x 22 wildcards with value deviations <= 1 over all subsets '
                           'and <= 2 with <= 1 other present; 2 items D<=1 x 22 wildcards; 2 items D=2 x 8 wildcards; '
                           '3 items D<=1 x 4 wildcards'),
            'form_family': 'attributeFormDefault x form, 7 new combinations x every use/constraint/placement option '
                           '(quick: type int, 4 wildcards; thorough: 3 types, 8 wildcards) + pairs of two forms',
            'schemas': len(sp), 'instances_per_schema': {'light': len(inst_list(False)), 'heavy': len(inst_list(True))}}
