"""C16 - wildcard namespace constraints behave as sets of allowed names.

Complete product: every ordered pair of constraints of the alphabet (mc/ref/wild.py) x every
derived operation x every class of the name universe, for element and attribute wildcards
and both XSD versions.  Each case is a trace of the set model replayed against the
implementation through schema construction and is_valid().
"""
import itertools

import xmlschema
from xmlschema import XMLSchema10, XMLSchema11
from xmlschema.validators.exceptions import XMLSchemaParseError, XMLSchemaModelError

from mc.ref import wild
from mc.ref.wild import NS, UNIVERSE, denote, render, show

ID = 'C16'
TITLE = 'Wildcard namespace constraints behave as sets of allowed names'
RULE = ('every ordered pair (c1, c2) of namespace constraints over {##any, ##other, subsets of {##local, '
        '##targetNamespace, N1, N2}} (+ notNamespace subsets x notQName subsets in 1.1) x operation '
        '{admits-elem, admits-attr, union (extension; also with the base or the derived wildcard taken from a referenced attribute group, every other user of the group re-checked), intersection (attribute groups), restriction-attr, '
        'restriction-elem, overlap (choice UPA + is_overlap())} x 10 name classes; a case is non-trivial when '
        'its (version, op, denotation(c1), denotation(c2)) signature is new; distinct = distinct (version, op, c1, c2)')
ASSUMPTIONS = [
    'the 10 name classes (5 namespaces x declared/undeclared local name) are a partition no constraint of the alphabet can split',
    'processContents is fixed to skip (lax for restriction pairs equal on both sides) so only the namespace constraint decides',
    '##defined is judged against a declaration in the same schema document only; ##definedSibling is outside the alphabet',
    'union with ##defined on exactly one operand is not judged on declared names (the spec keeps the keyword only if both have it)',
    'XSD 1.0 unions the spec calls not expressible are not judged when the library refuses the schema',
]
VERSIONS = {'1.0': XMLSchema10, '1.1': XMLSchema11}
HEAD = ('<xs:schema xmlns:xs="http://www.w3.org/2001/XMLSchema" targetNamespace="urn:t" xmlns:t="urn:t" '
        'xmlns:n1="urn:n1" elementFormDefault="qualified">\n<xs:element name="a"/>\n<xs:attribute name="a"/>\n'
        '<xs:element name="b"/>\n')
TAIL = '</xs:schema>'
XMLNS = 'xmlns:t="urn:t" xmlns:n1="urn:n1" xmlns:n2="urn:n2" xmlns:f="urn:f"'
PFX = {'T': 't:', 'N1': 'n1:', 'N2': 'n2:', 'F': 'f:', 'L': ''}
OPS = ('admits', 'union', 'union-group', 'inter', 'inter-local', 'restr-attr', 'restr-elem', 'overlap')
PC = 'processContents="skip"'


def notq_pool(tier):
    # the same pool in both tiers: with only (T:a, ##defined) every specific name is also a declared one, and a
    # notQName set shared between a wildcard and its copy (operand aliasing) is invisible
    return ('T:a', 'N1:a', 'D')


def qn(name):
    return PFX[name[0]] + name[1]


def cls(name):
    return '%s:%s' % name


def attr_doc(elem, name):
    return '<t:%s %s %s="v"/>' % (elem, XMLNS, qn(name))


def elem_doc(elem, name):
    return '<t:%s %s><%s/></t:%s>' % (elem, XMLNS, qn(name), elem)


def build(version, body):
    """Returns (schema, None) or (None, error text)."""
    try:
        return VERSIONS[version](HEAD + body + TAIL), None
    except (XMLSchemaParseError, XMLSchemaModelError) as e:
        return None, (e.message or str(e))[:200]


def observed_set(schema, elem, kind):
    mk = attr_doc if kind == 'attr' else elem_doc
    return frozenset(n for n in UNIVERSE if schema.is_valid(mk(elem, n)))


def fmt(names):
    return ','.join(sorted(cls(n) for n in names)) or '-'


# --- schema bodies --------------------------------------------------------------------------

def body_admits(c, i=''):
    return ('<xs:element name="ea%s"><xs:complexType><xs:anyAttribute %s %s/></xs:complexType></xs:element>\n'
            '<xs:element name="ee%s"><xs:complexType><xs:sequence><xs:any %s %s/></xs:sequence></xs:complexType>'
            '</xs:element>\n' % (i, render(c), PC, i, render(c), PC))


def body_union(c1, c2, i=''):
    return ('<xs:complexType name="B%s"><xs:anyAttribute %s %s/></xs:complexType>\n'
            '<xs:complexType name="D%s"><xs:complexContent><xs:extension base="t:B%s"><xs:anyAttribute %s %s/>'
            '</xs:extension></xs:complexContent></xs:complexType>\n<xs:element name="e%s" type="t:D%s"/>\n'
            '<xs:element name="x%s" type="t:B%s"/>\n'
            % (i, render(c1), PC, i, i, render(c2), PC, i, i, i, i))


def body_union_group(c1, c2):
    """Extension whose base (e1) or whose own (e2) attribute wildcard comes from a referenced global attribute group."""
    return ('<xs:attributeGroup name="g"><xs:anyAttribute %s %s/></xs:attributeGroup>\n'
            '<xs:attributeGroup name="h"><xs:anyAttribute %s %s/></xs:attributeGroup>\n'
            '<xs:complexType name="B1"><xs:attributeGroup ref="t:g"/></xs:complexType>\n'
            '<xs:complexType name="D1"><xs:complexContent><xs:extension base="t:B1"><xs:anyAttribute %s %s/>'
            '</xs:extension></xs:complexContent></xs:complexType>\n'
            '<xs:complexType name="B2"><xs:anyAttribute %s %s/></xs:complexType>\n'
            '<xs:complexType name="D2"><xs:complexContent><xs:extension base="t:B2"><xs:attributeGroup ref="t:h"/>'
            '</xs:extension></xs:complexContent></xs:complexType>\n'
            '<xs:element name="e1" type="t:D1"/>\n<xs:element name="x1" type="t:B1"/>\n'
            '<xs:element name="e2" type="t:D2"/>\n<xs:element name="x2" type="t:B2"/>\n'
            '<xs:element name="zg"><xs:complexType><xs:attributeGroup ref="t:g"/></xs:complexType></xs:element>\n'
            '<xs:element name="zh"><xs:complexType><xs:attributeGroup ref="t:h"/></xs:complexType></xs:element>\n'
            % (render(c1), PC, render(c2), PC, render(c2), PC, render(c1), PC))


def body_inter(c1, c2, i=''):
    return ('<xs:attributeGroup name="g%s"><xs:anyAttribute %s %s/></xs:attributeGroup>\n'
            '<xs:attributeGroup name="h%s"><xs:anyAttribute %s %s/></xs:attributeGroup>\n'
            '<xs:element name="e%s"><xs:complexType><xs:attributeGroup ref="t:g%s"/><xs:attributeGroup ref="t:h%s"/>'
            '</xs:complexType></xs:element>\n'
            '<xs:element name="x%s"><xs:complexType><xs:attributeGroup ref="t:g%s"/></xs:complexType></xs:element>\n'
            '<xs:element name="y%s"><xs:complexType><xs:attributeGroup ref="t:h%s"/></xs:complexType></xs:element>\n'
            % (i, render(c1), PC, i, render(c2), PC, i, i, i, i, i, i, i))


def body_inter_local(c1, c2, i=''):
    return ('<xs:attributeGroup name="g%s"><xs:anyAttribute %s %s/></xs:attributeGroup>\n'
            '<xs:element name="e%s"><xs:complexType><xs:attributeGroup ref="t:g%s"/><xs:anyAttribute %s %s/>'
            '</xs:complexType></xs:element>\n'
            '<xs:element name="x%s"><xs:complexType><xs:attributeGroup ref="t:g%s"/></xs:complexType></xs:element>\n'
            % (i, render(c1), PC, i, i, render(c2), PC, i, i))


def body_restr_attr(c1, c2):
    return ('<xs:complexType name="B"><xs:anyAttribute %s %s/></xs:complexType>\n'
            '<xs:complexType name="D"><xs:complexContent><xs:restriction base="t:B"><xs:anyAttribute %s %s/>'
            '</xs:restriction></xs:complexContent></xs:complexType>\n<xs:element name="e" type="t:D"/>\n'
            % (render(c1), PC, render(c2), PC))


def body_restr_elem(c1, c2):
    return ('<xs:complexType name="B"><xs:sequence><xs:any %s %s/></xs:sequence></xs:complexType>\n'
            '<xs:complexType name="D"><xs:complexContent><xs:restriction base="t:B"><xs:sequence><xs:any %s %s/>'
            '</xs:sequence></xs:restriction></xs:complexContent></xs:complexType>\n<xs:element name="e" type="t:D"/>\n'
            % (render(c1), PC, render(c2), PC))


def body_choice(c1, c2):
    return ('<xs:element name="e"><xs:complexType><xs:choice><xs:any %s %s/><xs:any %s %s/></xs:choice>'
            '</xs:complexType></xs:element>\n' % (render(c1), PC, render(c2), PC))


def body_seq(c1, c2):
    return ('<xs:element name="e"><xs:complexType><xs:sequence><xs:any %s %s/><xs:element ref="t:b"/>'
            '<xs:any %s %s/></xs:sequence></xs:complexType></xs:element>\n' % (render(c1), PC, render(c2), PC))


# --- one case -------------------------------------------------------------------------------

def expected_refusal_ok(version, c):
    """The library's own well-formedness rule for notQName: names must lie in allowed namespaces."""
    kind, nss, notq = c
    for q in notq:
        if q == 'D':
            continue
        ns = q.split(':')[0]
        if kind == 'not':
            # library rule: error when every QName's namespace is excluded by notNamespace
            if all(x == 'D' or x.split(':')[0] in nss for x in notq):
                return True
        elif not wild.ns_allowed(c, ns):
            return True
    return False


def run_case(version, op, c1, c2):
    """Returns (list of (key, what), info dict)."""
    discs = []
    info = {'built': 0, 'validated': 0, 'judged': 0, 'skipped': None}
    base = 'C16|%s|%s|%s|%s' % (version, op, show(c1), show(c2) if c2 is not None else '')

    def disc(tag, what):
        discs.append((base + '|' + tag, what))

    if op == 'admits':
        schema, err = build(version, body_admits(c1))
        info['built'] += 1
        if schema is None:
            if expected_refusal_ok(version, c1):
                info['skipped'] = 'notQName outside allowed namespaces (library rule)'
            else:
                disc('refused', 'schema with a single wildcard %s refused: %s' % (render(c1), err))
            return discs, info
        exp = denote(c1)
        for kind, elem in (('attr', 'ea'), ('elem', 'ee')):
            got = observed_set(schema, elem, kind)
            info['validated'] += len(UNIVERSE)
            info['judged'] += len(UNIVERSE)
            if got != exp:
                disc('%s|extra=%s|missing=%s' % (kind, fmt(got - exp), fmt(exp - got)),
                     '%s wildcard %s admits {%s}; set semantics says {%s}' % (kind, render(c1), fmt(got), fmt(exp)))
        return discs, info

    s1, s2 = denote(c1), denote(c2)
    if op in ('union', 'inter', 'inter-local'):
        body = {'union': body_union, 'inter': body_inter, 'inter-local': body_inter_local}[op](c1, c2)
        schema, err = build(version, body)
        info['built'] += 1
        if schema is None:
            if op == 'union' and version == '1.0' and 'not expressible' in err:
                info['skipped'] = 'union not expressible in XSD 1.0'
            else:
                disc('refused', '%s of %s and %s refused: %s' % (op, render(c1), render(c2), err))
            return discs, info
        exp = (s1 | s2) if op == 'union' else (s1 & s2)
        got = observed_set(schema, 'e', 'attr')
        info['validated'] += len(UNIVERSE)
        judged = set(UNIVERSE)
        if op == 'union' and (('D' in c1[2]) != ('D' in c2[2])):
            judged -= wild.DECLARED
        info['judged'] += len(judged)
        if got & judged != exp & judged:
            disc('extra=%s|missing=%s' % (fmt((got - exp) & judged), fmt((exp - got) & judged)),
                 '%s of %s and %s admits {%s}; sets give {%s}' % (op, render(c1), render(c2), fmt(got), fmt(exp)))
        # the operands themselves must still denote their own sets after the composition (no aliasing)
        for elem, c, s_own in (('x', c1, s1),) + ((('y', c2, s2),) if op == 'inter' else ()):
            own = observed_set(schema, elem, 'attr')
            info['validated'] += len(UNIVERSE)
            info['judged'] += len(UNIVERSE)
            if own != s_own:
                disc('operand-%s|extra=%s|missing=%s' % (elem, fmt(own - s_own), fmt(s_own - own)),
                     'after the %s with %s the operand wildcard %s itself admits {%s}; its set is {%s}'
                     % (op, render(c2 if elem == 'x' else c1), render(c), fmt(own), fmt(s_own)))
        return discs, info

    if op == 'union-group':
        schema, err = build(version, body_union_group(c1, c2))
        info['built'] += 1
        if schema is None:
            if version == '1.0' and 'not expressible' in err:
                info['skipped'] = 'union not expressible in XSD 1.0'
            else:
                disc('refused', 'union (through attribute groups) of %s and %s refused: %s' % (render(c1), render(c2), err))
            return discs, info
        judged = set(UNIVERSE)
        if ('D' in c1[2]) != ('D' in c2[2]):
            judged -= wild.DECLARED
        for elem, exp, what in (('e1', s1 | s2, 'extension of a base whose wildcard comes from group g'),
                                ('e2', s1 | s2, 'extension whose own wildcard comes from group h'),
                                ('x1', s1, 'the base type using group g'), ('x2', s1, 'the base type with its own wildcard'),
                                ('zg', s1, 'another user of group g'), ('zh', s2, 'another user of group h')):
            got = observed_set(schema, elem, 'attr')
            info['validated'] += len(UNIVERSE)
            jd = judged if elem in ('e1', 'e2') else set(UNIVERSE)
            info['judged'] += len(jd)
            if got & jd != exp & jd:
                disc('%s|extra=%s|missing=%s' % (elem, fmt((got - exp) & jd), fmt((exp - got) & jd)),
                     'base wildcard %s, extension wildcard %s: %s admits {%s}; sets give {%s}'
                     % (render(c1), render(c2), what, fmt(got), fmt(exp)))
        return discs, info

    if op in ('restr-attr', 'restr-elem'):
        body = body_restr_attr(c1, c2) if op == 'restr-attr' else body_restr_elem(c1, c2)
        schema, err = build(version, body)
        info['built'] += 1
        info['judged'] += 1
        if schema is None:
            info['skipped'] = 'restriction refused (converse not claimed)'
            return discs, info
        if not s2 <= s1:
            disc('accepted|witness=%s' % fmt(s2 - s1),
                 'restriction of wildcard %s to %s accepted although {%s} is admitted only by the derived wildcard'
                 % (render(c1), render(c2), fmt(s2 - s1)))
        return discs, info

    if op == 'overlap':
        exp = bool(s1 & s2)
        schema, err = build(version, body_choice(c1, c2))
        info['built'] += 1
        info['judged'] += 1
        refused = schema is None
        if refused != exp:
            disc('choice|%s' % ('refused' if refused else 'accepted'),
                 'choice of wildcards %s | %s is %s but their sets %s' %
                 (render(c1), render(c2), 'refused (%s)' % err if refused else 'accepted',
                  'intersect on {%s}' % fmt(s1 & s2) if exp else 'are disjoint'))
        schema, err = build(version, body_seq(c1, c2))
        info['built'] += 1
        if schema is None:
            disc('seq-refused', 'sequence(any, b, any) refused: %s' % err)
            return discs, info
        parts = list(schema.elements['e'].type.content)
        w1, w2 = parts[0], parts[2]
        got = (bool(w1.is_overlap(w2)), bool(w2.is_overlap(w1)))
        info['judged'] += 1
        if got != (exp, exp):
            disc('is_overlap=%s,%s' % got, 'is_overlap() of %s and %s says %s; sets %s'
                 % (render(c1), render(c2), got, 'intersect' if exp else 'are disjoint'))
        return discs, info
    raise ValueError(op)


# --- sharding -------------------------------------------------------------------------------

def shards(tier, seed):
    out = []
    for version in ('1.0', '1.1'):
        cs = wild.constraints(version, notq_pool(tier))
        out.append((tier, version, 'admits', 0, len(cs)))
        step = 2 if version == '1.0' else 4
        for op in OPS[1:]:
            for lo in range(0, len(cs), step):
                out.append((tier, version, op, lo, min(lo + step, len(cs))))
    return out


def run_shard(shard, acc):
    tier, version, op, lo, hi = shard
    cs = wild.constraints(version, notq_pool(tier))
    usable = None
    dens = set()
    for i in range(lo, hi):
        c1 = cs[i]
        others = [None] if op == 'admits' else cs
        for c2 in others:
            if op != 'admits' and (expected_refusal_ok(version, c1) or expected_refusal_ok(version, c2)):
                acc.cnt('pairs_skipped_unusable_notQName')
                continue
            with acc.guard(60):
                discs, info = run_case(version, op, c1, c2)
            acc.ev()
            acc.st(transitions=info['judged'], traces=info['built'] + info['validated'])
            dens.add(denote(c1))
            if c2 is not None:
                dens.add(denote(c2))
            sig = '%s|%s|%s|%s' % (version, op, sorted(denote(c1)), sorted(denote(c2)) if c2 else '')
            acc.nt(sig)
            if info['skipped']:
                acc.cnt('skipped: ' + info['skipped'])
            acc.out('%s:%s' % (op, 'disc' if discs else (info['skipped'] or 'agree')))
            case = {'version': version, 'op': op, 'c1': c1, 'c2': c2}
            if not discs and (i, c2) in ((lo, others[0]), (lo, others[-1])) and lo % 16 == 0:
                acc.sample({'version': version, 'op': op, 'c1': render(c1), 'c2': render(c2) if c2 else None,
                            'set1': fmt(denote(c1)), 'set2': fmt(denote(c2)) if c2 else None})
            for key, what in discs:
                acc.disc(key, what, case)
    acc.st(states=len(dens))


def replay(case):
    c1 = tuple(tuple(x) if isinstance(x, list) else x for x in case['c1'])
    c2 = case['c2'] and tuple(tuple(x) if isinstance(x, list) else x for x in case['c2'])
    discs, _ = run_case(case['version'], case['op'], c1, c2)
    return discs


def bounds(tier, seed):
    return {'size': 'all ordered pairs of constraints; 1.0: 18; 1.1: (18+15) x %d notQName subsets'
            % (2 ** len(notq_pool(tier))), 'deviations': 'complete product', 'notQName_pool': list(notq_pool(tier)),
            'universe': [cls(n) for n in UNIVERSE]}
