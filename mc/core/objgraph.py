"""Canonical fingerprint of the mutable state hanging off a schema object.

A generic walk (not a list of attribute names): every component reachable through
schema.iter_components() of every schema of the global maps, plus the maps themselves, contributes
    * the contents of each attribute that is a mutable container (set / dict / list / Counter),
      with components rendered by a structural label (class, name, path of the defining XML element),
    * the names of populated functools.cached_property slots,
    * for the maps' SchemaCache: cache_info().currsize of every cached function.
ElementTree nodes, elementpath objects and components of the shared meta-schema are labelled, not entered.
Two histories with the same fingerprint left the same observable residue on the object graph.
"""
import hashlib
from collections import Counter
from functools import cached_property


def _label(obj, memo):
    """Structural label of a value."""
    if obj is None or isinstance(obj, (bool, int, float, str, bytes)):
        return repr(obj)
    k = id(obj)
    if k in memo:
        return memo[k]
    cls = type(obj)
    mod = cls.__module__ or ''
    if mod.startswith('xmlschema'):
        name = getattr(obj, 'name', None)
        elem = getattr(obj, 'elem', None)
        pos = ''
        if elem is not None and hasattr(elem, 'tag'):
            pos = '%s@%s' % (getattr(elem, 'tag', ''), sorted((getattr(elem, 'attrib', None) or {}).items()))
        lab = '<%s %s %s>' % (cls.__name__, name, pos)
    elif isinstance(obj, (set, frozenset)):
        lab = '{' + ','.join(sorted(_label(x, memo) for x in obj)) + '}'
    elif isinstance(obj, dict):
        lab = '{' + ','.join(sorted('%s:%s' % (_label(a, memo), _label(b, memo)) for a, b in obj.items())) + '}'
    elif isinstance(obj, (list, tuple)):
        lab = '[' + ','.join(_label(x, memo) for x in obj) + ']'
    else:
        lab = '<%s.%s>' % (mod, cls.__name__)
    memo[k] = lab
    return lab


def _attrs(obj):
    out = {}
    d = getattr(obj, '__dict__', None)
    if d:
        out.update(d)
    for klass in type(obj).__mro__:
        for s in getattr(klass, '__slots__', ()) or ():
            if isinstance(s, str) and s not in out and s != '__dict__':
                try:
                    out[s] = getattr(obj, s)
                except AttributeError:
                    pass
    return out


def _cached_props(cls):
    names = set()
    for klass in cls.__mro__:
        for n, v in vars(klass).items():
            if isinstance(v, cached_property):
                names.add(n)
    return names


def snapshot(schema, include_meta=False):
    """Returns a dict {path label: state string} describing the mutable residue."""
    memo = {}
    out = {}
    maps = schema.maps
    comps = []
    for s in list(maps.schemas):
        if not include_meta and s is getattr(schema, 'meta_schema', None):
            continue
        comps.append(s)
        try:
            comps.extend(s.iter_components())
        except Exception:                               # noqa
            pass
    comps.append(maps)
    seen = set()
    for n, c in enumerate(comps):
        if id(c) in seen:
            continue
        seen.add(id(c))
        base = _label(c, memo)
        cp = _cached_props(type(c))
        d = getattr(c, '__dict__', {}) or {}
        populated = sorted(p for p in cp if p in d)
        if populated:
            out['%d|%s|cached' % (n, base)] = ','.join(populated)
        for name, val in _attrs(c).items():
            if name in cp:
                continue
            if isinstance(val, (set, dict, list, Counter)) and not name.startswith('__'):
                out['%d|%s|%s' % (n, base, name)] = _label(val, {})
    cache = getattr(maps, 'cache', None)
    caches = getattr(cache, '_caches', None)
    if caches:
        for func, c in caches.items():
            info = getattr(c, 'cache_info', None)
            if info is not None:
                cur = info().currsize
                if cur:
                    out['cache|%s' % getattr(func, '__qualname__', repr(func))] = str(cur)
    return out


def fingerprint(schema, ignore_cache_sizes=False):
    snap = snapshot(schema)
    h = hashlib.blake2b(digest_size=12)
    for k in sorted(snap):
        if ignore_cache_sizes and (k.startswith('cache|') or k.endswith('|cached')):
            continue
        h.update(k.encode())
        h.update(b'=')
        h.update(snap[k].encode('utf-8', 'replace'))
        h.update(b';')
    return h.hexdigest()


def diff(a, b):
    keys = sorted(set(a) | set(b))
    return {k: (a.get(k), b.get(k)) for k in keys if a.get(k) != b.get(k)}
