"""Runner shared by every check: sharding, accumulation, known-findings matching,
fresh-interpreter confirmation, replay files and evidence.

A check module (mc/checks/cNN.py) provides

    ID            'C16'
    TITLE         short text
    RULE          how cases are enumerated / what makes one non-trivial (evidence 'rule')
    ASSUMPTIONS   list of strings
    shards(tier, seed) -> list of picklable shard descriptors (small)
    run_shard(shard, acc)   explores the shard completely, reporting into `acc`
    replay(case) -> list of (key, what) discrepancies for one recorded case
    bounds(tier, seed) -> dict describing the completed bound (evidence)

Exit codes: 0 held (known findings allowed), 1 VIOLATION, 2 harness error.
"""
from __future__ import annotations

import hashlib
import importlib
import json
import multiprocessing
import os
import signal
import subprocess
import sys
import time
import traceback
from collections import Counter
from contextlib import contextmanager

VERIF = os.path.dirname(os.path.dirname(os.path.dirname(os.path.abspath(__file__))))
FINDINGS_FILE = os.path.join(VERIF, 'known_findings.jsonl')
MAX_SAMPLES = 8
MAX_REPORTED = 40          # violations written out as replay files (all are counted)
MAX_CONFIRM = 6            # violations re-run in a fresh interpreter


def h64(text: str) -> int:
    return int.from_bytes(hashlib.blake2b(text.encode('utf-8', 'surrogatepass'), digest_size=8).digest(), 'big')


def in_slice(key: str, seed: int, k: int) -> bool:
    """Seed-selected residue class of the next bound: exhaustive inside the slice."""
    return h64(key) % k == seed % k


class CaseTimeout(Exception):
    pass


class Acc:
    """Accumulator filled by run_shard(); merged in the parent."""

    def __init__(self):
        self.evaluations = 0
        self.states = 0
        self.transitions = 0
        self.traces = 0
        self.nontrivial = set()      # 64-bit hashes of distinct non-trivial case keys
        self.outcomes = Counter()
        self.counters = Counter()
        self.samples = []
        self.discs = []              # (key, what, case)
        self.errors = []             # harness errors (tracebacks)

    # -- counting -----------------------------------------------------------
    def ev(self, n=1):
        self.evaluations += n

    def nt(self, key: str):
        self.nontrivial.add(h64(key))

    def st(self, states=0, transitions=0, traces=0):
        self.states += states
        self.transitions += transitions
        self.traces += traces

    def out(self, label, n=1):
        self.outcomes[label] += n

    def cnt(self, name, n=1):
        self.counters[name] += n

    def sample(self, obj):
        if len(self.samples) < MAX_SAMPLES:
            self.samples.append(obj)

    def disc(self, key: str, what: str, case):
        self.discs.append((key, what, case))

    def harness_error(self, text):
        self.errors.append(text)

    @contextmanager
    def guard(self, seconds=20.0):
        """Per-case watchdog: a Python-level hang becomes CaseTimeout."""
        def onalarm(signum, frame):
            raise CaseTimeout()
        old = signal.signal(signal.SIGALRM, onalarm)
        signal.setitimer(signal.ITIMER_REAL, seconds)
        try:
            yield
        finally:
            signal.setitimer(signal.ITIMER_REAL, 0)
            signal.signal(signal.SIGALRM, old)

    def merge(self, other: 'Acc'):
        self.evaluations += other.evaluations
        self.states += other.states
        self.transitions += other.transitions
        self.traces += other.traces
        self.nontrivial |= other.nontrivial
        self.outcomes.update(other.outcomes)
        self.counters.update(other.counters)
        for s in other.samples:
            self.sample(s)
        self.discs.extend(other.discs)
        self.errors.extend(other.errors)


def _worker(args):
    modname, shard = args
    acc = Acc()
    try:
        mod = importlib.import_module(modname)
        mod.run_shard(shard, acc)
    except BaseException:                                   # noqa
        acc.harness_error('shard %r: %s' % (shard, traceback.format_exc()))
    return acc


def load_findings(pid):
    known, fixed = {}, []
    if os.path.exists(FINDINGS_FILE):
        with open(FINDINGS_FILE, encoding='utf-8') as f:
            for line in f:
                line = line.strip()
                if not line:
                    continue
                if line.startswith('fixed:'):
                    if ('property=%s ' % pid) in line:
                        fixed.append(line)
                    continue
                rec = json.loads(line)
                if rec['property'] == pid:
                    known[rec['key']] = rec.get('what', '')
    return known, fixed


def write_replay(pid, key, what, case):
    d = os.path.join(VERIF, 'replays', pid)
    os.makedirs(d, exist_ok=True)
    sha = hashlib.sha1(key.encode('utf-8', 'surrogatepass')).hexdigest()[:12]
    path = os.path.join(d, sha + '.json')
    with open(path, 'w', encoding='utf-8') as f:
        json.dump({'property': pid, 'key': key, 'what': what, 'case': case}, f, indent=1, ensure_ascii=True,
                  default=repr)
    test = os.path.join(d, 'test_%s.py' % sha)
    with open(test, 'w', encoding='utf-8') as f:
        f.write(
            '"""Replays one recorded violation of %s without the explorer.\n'
            'Run: PYTHONPATH=/repo:/verif /venv/bin/python -m unittest %s\n%s\n"""\n'
            'import json, os, unittest\n'
            'from mc.checks import %s as chk\n\n'
            'class Replay(unittest.TestCase):\n'
            '    def test_replay(self):\n'
            '        rec = json.load(open(os.path.join(os.path.dirname(__file__), %r)))\n'
            '        self.assertEqual([], chk.replay(rec["case"]))\n\n'
            'if __name__ == "__main__":\n    unittest.main()\n'
            % (pid, test, what.replace('"""', "'''"), pid.lower(), sha + '.json'))
    return path


def confirm_fresh(pid, path):
    """Re-run one failing case in a fresh interpreter. True if it fails again."""
    env = dict(os.environ)
    p = subprocess.run([sys.executable, os.path.join(VERIF, 'check'), pid, '--replay', path],
                       capture_output=True, text=True, env=env, timeout=600)
    return p.returncode == 1, p.stdout[-2000:] + p.stderr[-2000:]


def write_evidence(pid, tier, seed, acc, wall, bounds, rule, assumptions, violations, known_seen, capped,
                   extra=None):
    os.makedirs(os.path.join(VERIF, 'evidence'), exist_ok=True)
    cov = {
        'states': acc.states,
        'transitions': acc.transitions,
        'traces_validated_against_impl': acc.traces,
        'evaluations': acc.evaluations,
        'distinct_nontrivial': len(acc.nontrivial),
        'rule': rule,
        'samples': acc.samples[:MAX_SAMPLES],
        'exhaustive': not capped,
        'capped': capped,
        'bounds': bounds,
        'distinct_outcomes': len(acc.outcomes),
        'outcomes': dict(sorted(acc.outcomes.items(), key=lambda kv: -kv[1])[:40]),
        'counters': dict(sorted(acc.counters.items())),
        'known_findings_seen': known_seen,
    }
    if extra:
        cov.update(extra)
    ev = {
        'property_id': pid,
        'tier': tier,
        'seed': seed,
        'level': 'model_checking',
        'coverage': cov,
        'assumptions': assumptions,
        'wall_s': round(wall, 2),
        'violations': violations,
    }
    path = os.path.join(VERIF, 'evidence', pid + '.json')
    tmp = path + '.tmp'
    with open(tmp, 'w', encoding='utf-8') as f:
        json.dump(ev, f, indent=1, ensure_ascii=True, default=repr)
    os.replace(tmp, path)
    return path


def run_check(modname, tier, seed, procs=None, dump=None):
    mod = importlib.import_module(modname)
    pid = mod.ID
    t0 = time.time()
    shards = mod.shards(tier, seed)
    procs = procs or int(os.environ.get('VERIF_PROCS', '0')) or min(16, os.cpu_count() or 1)
    budget = float(os.environ.get('VERIF_BUDGET_S', '0')) or getattr(mod, 'BUDGET_S', {}).get(tier, 0)
    total = Acc()
    capped = False
    done = 0
    if procs == 1 or len(shards) <= 1:
        for s in shards:
            total.merge(_worker((modname, s)))
            done += 1
            if budget and time.time() - t0 > budget and done < len(shards):
                capped = True
                break
    else:
        ctx = multiprocessing.get_context('fork')
        with ctx.Pool(min(procs, len(shards)), maxtasksperchild=getattr(mod, 'TASKS_PER_CHILD', None)) as pool:
            it = pool.imap_unordered(_worker, [(modname, s) for s in shards], chunksize=1)
            for acc in it:
                total.merge(acc)
                done += 1
                if budget and time.time() - t0 > budget and done < len(shards):
                    capped = True
                    pool.terminate()
                    break
    if hasattr(mod, 'finish'):
        mod.finish(tier, seed, total)

    known, _fixed = load_findings(pid)
    seen_known, new = {}, {}
    for key, what, case in total.discs:
        if key in known:
            seen_known.setdefault(key, what)
        else:
            new.setdefault(key, (what, case))
    if dump:
        with open(dump, 'w', encoding='utf-8') as f:
            for key, what, case in total.discs:
                f.write(json.dumps({'property': pid, 'key': key, 'what': what, 'known': key in known},
                                   ensure_ascii=True) + '\n')

    for key in sorted(seen_known):
        print('KNOWN-FINDING: property=%s %s -- %s' % (pid, key, seen_known[key]))

    status = 0
    if total.errors:
        for e in total.errors[:5]:
            print('HARNESS-ERROR property=%s %s' % (pid, e))
        status = 2

    nviol = len(new)
    reported = 0
    for i, key in enumerate(sorted(new, key=lambda k: (len(k), k))):
        if reported >= MAX_REPORTED:
            break
        what, case = new[key]
        path = write_replay(pid, key, what, case)
        if i < MAX_CONFIRM and hasattr(mod, 'replay') and not os.environ.get('VERIF_NO_CONFIRM'):
            again, log = confirm_fresh(pid, path)
            if not again:
                print('HARNESS-NONDETERMINISM property=%s case does not reproduce in a fresh interpreter: %s\n%s'
                      % (pid, path, log))
                status = 2
                continue
        print('VIOLATION property=%s replay=%s' % (pid, path))
        print('  key: %s\n  what: %s' % (key, what))
        reported += 1
    if nviol > reported:
        print('... and %d more violations of %s not written out' % (nviol - reported, pid))
    if nviol and status == 0:
        status = 1

    wall = time.time() - t0
    bounds = mod.bounds(tier, seed) if hasattr(mod, 'bounds') else {}
    bounds['shards_total'] = len(shards)
    bounds['shards_completed'] = done
    extra = mod.evidence_extra(tier, seed, total) if hasattr(mod, 'evidence_extra') else None
    write_evidence(pid, tier, seed, total, wall, bounds, mod.RULE, mod.ASSUMPTIONS, nviol, len(seen_known),
                   capped, extra)
    print('%s tier=%s seed=%d shards=%d/%d evaluations=%d distinct_nontrivial=%d states=%d transitions=%d '
          'traces=%d outcomes=%d known=%d violations=%d capped=%s wall=%.1fs'
          % (pid, tier, seed, done, len(shards), total.evaluations, len(total.nontrivial), total.states,
             total.transitions, total.traces, len(total.outcomes), len(seen_known), nviol, capped, wall))
    if total.states < 1 or total.transitions < 1 or total.evaluations < 1:
        print('HARNESS-ERROR property=%s vacuous exploration' % pid)
        status = status or 2
    return status


def run_replay(modname, path):
    mod = importlib.import_module(modname)
    with open(path, encoding='utf-8') as f:
        rec = json.load(f)
    discs = mod.replay(rec['case'])
    known, _ = load_findings(mod.ID)
    bad = 0
    for key, what in discs:
        if key in known:
            print('KNOWN-FINDING: property=%s %s -- %s' % (mod.ID, key, what))
        else:
            print('VIOLATION property=%s replay=%s' % (mod.ID, path))
            print('  key: %s\n  what: %s' % (key, what))
            bad += 1
    if not discs:
        print('replay of %s: property holds on this case' % path)
    return 1 if bad else 0
